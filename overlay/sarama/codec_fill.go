//go:build verif

package sarama

// Reflection machinery of the C09 (wire round-trip) engine: domain-driven
// filler, deep clone, nil/empty-insensitive comparison, leaf enumeration and
// single-leaf perturbation. Injected into package sarama at build time.

import (
	"bytes"
	"fmt"
	"math"
	"math/rand"
	"reflect"
	"sort"
	"strings"
	"time"
	"unsafe"
)

var (
	vcTypeTime      = reflect.TypeOf(time.Time{})
	vcTypeDuration  = reflect.TypeOf(time.Duration(0))
	vcTypeBroker    = reflect.TypeOf(Broker{})
	vcTypeBrokerPtr = reflect.TypeOf(&Broker{})
	vcTypeBytes     = reflect.TypeOf([]byte(nil))
	vcTypeRecords   = reflect.TypeOf(Records{})
)

// vcSettable strips the read-only flag reflect puts on values reached through
// unexported fields (the value must be addressable, which everything reached
// from a pointer is).
func vcSettable(v reflect.Value) reflect.Value {
	if !v.IsValid() || v.CanSet() || !v.CanAddr() {
		return v
	}
	return reflect.NewAt(v.Type(), unsafe.Pointer(v.UnsafeAddr())).Elem()
}

// vcClean returns a flag-free copy of a (possibly read-only, possibly
// non-addressable) value.
func vcClean(v reflect.Value) reflect.Value {
	if !v.IsValid() {
		return v
	}
	if v.CanAddr() {
		return vcSettable(v)
	}
	return v
}

// vcAddr returns an addressable copy of a clean but non-addressable value
// (map elements), so that unexported fields below it can be reached.
func vcAddr(v reflect.Value) reflect.Value {
	if !v.IsValid() || v.CanAddr() {
		return v
	}
	n := reflect.New(v.Type()).Elem()
	n.Set(v)
	return n
}

// ---------------------------------------------------------------- domain table

type vcRule int

const (
	vcRuleNone  vcRule = iota
	vcRulePin          // protocol version carried by Go code, not by the wire: pinned to the version under test, never a leaf
	vcRuleCache        // encoder/decoder scratch or derived data: left zero, never a leaf, ignored by comparisons
	vcRuleParam        // encoder parameter / discriminator: domain-filled, never a leaf
	vcRuleZero         // left at its zero value by the filler but compared normally
	vcRuleInput        // input from which the encoder derives a wire field; filled, never a leaf
)

// vcFieldRules is the domain table keyed by "Type.field".
var vcFieldRules = map[string]vcRule{
	// scratch space of the two encoder passes / metrics
	"Record.length":                 vcRuleCache,
	"RecordBatch.compressedRecords": vcRuleCache,
	"RecordBatch.recordsLen":        vcRuleCache,
	"Message.compressedCache":       vcRuleCache,
	"Message.compressedSize":        vcRuleCache,
	// derived from Topics in map iteration order by decode
	"StickyAssignorUserDataV0.topicPartitions": vcRuleCache,
	"StickyAssignorUserDataV1.topicPartitions": vcRuleCache,
	// compression level steers the compressor, it is not on the wire
	"RecordBatch.CompressionLevel": vcRuleParam,
	"Message.CompressionLevel":     vcRuleParam,
	// discriminator of the union, derived from the arm that is set
	"Records.recordsType": vcRuleParam,
	// wire formats of their own, fixed by the format not by the request version
	"RecordBatch.Version": vcRuleParam,
	"Message.Version":     vcRuleParam,
	// Message.Set is the decoded view of Value for compressed wrappers (decode fills it, encode ignores it)
	"Message.Set": vcRuleZero,
	// "This field is never transmitted over the wire": encode sends HMAC(Password, Salt, Iterations)
	"AlterUserScramCredentialsUpsert.Password": vcRuleInput,
	// written by decode only (what arrived in place of the password); no API sets it
	"AlterUserScramCredentialsUpsert.saltedPassword": vcRuleZero,
	// helpers of the mock-side builder API, not wire fields
	"FetchResponse.LogAppendTime": vcRuleZero,
	"FetchResponse.Timestamp":     vcRuleZero,
}

// types whose Version field is wire data, not the protocol version of a body
var vcVersionIsData = map[string]bool{
	"ConsumerGroupMemberMetadata":   true,
	"ConsumerGroupMemberAssignment": true,
	"ControlRecord":                 true,
	"Message":                       true,
	"RecordBatch":                   true,
}

func vcRuleFor(owner reflect.Type, f reflect.StructField) vcRule {
	if r, ok := vcFieldRules[owner.Name()+"."+f.Name]; ok {
		return r
	}
	if (f.Name == "Version" || f.Name == "version") && !vcVersionIsData[owner.Name()] {
		switch f.Type.Kind() {
		case reflect.Int, reflect.Int8, reflect.Int16, reflect.Int32, reflect.Int64:
			return vcRulePin
		}
	}
	return vcRuleNone
}

// enum-typed fields stay within their defined range
var vcEnumRange = map[string][]int64{
	"CompressionCodec":                 {0, 1, 2, 3, 4},
	"ConfigResourceType":               {0, 2, 4, 8},
	"ConfigSource":                     {0, 1, 2, 3, 4, 5},
	"ScramMechanismType":               {0, 1, 2},
	"CoordinatorType":                  {0, 1},
	"IncrementalAlterConfigsOperation": {0, 1, 2, 3},
	"IsolationLevel":                   {0, 1},
	"RequiredAcks":                     {0, 1, -1, 2, 32767},
	"AclOperation":                     {0, 1, 2, 3, 4, 5, 6, 7, 8, 9, 10, 11, 12},
	"AclPermissionType":                {0, 1, 2, 3},
	"AclResourceType":                  {0, 1, 2, 3, 4, 5, 6},
	// 0 (unknown) is deliberately rewritten to Literal by Resource.encode ("Cannot encode an unknown resource pattern type")
	"AclResourcePatternType": {1, 2, 3, 4},
}

var vcKErrors = []int64{0, 0, 0, -1, 1, 2, 3, 5, 6, 7, 9, 10, 14, 15, 16, 17, 22, 25, 27, 35, 36, 41, 47, 56, 58, 72, 76, 87}

// ---------------------------------------------------------------- filler

type vcFillCtx struct {
	r       *rand.Rand
	version int16  // protocol version under test
	body    string // subject name
	depth   int
	many    bool   // allow a large record count now and then
	recArm  string // "", "legacy0", "legacy1", "default", "any": which arm Records values take
	minimal bool   // smallest sensible values (used when a perturbation has to invent an element)
	// plan makes the first values of every (body, version) systematic corners:
	// "zero" (nil collections, zero scalars), "empty" (empty non-nil collections,
	// non-nil pointers to zero), "snappyempty" (every record container snappy-
	// compressed around nothing), "one" (one element everywhere), "many" (record
	// batches of 40-200 small similar records, compressed), "" (random).
	plan string
}

func (fc *vcFillCtx) flat() bool { return fc.plan == "zero" || fc.plan == "empty" }

func (fc *vcFillCtx) pick(n int) int { return fc.r.Intn(n) }
func (fc *vcFillCtx) chance(p float64) bool {
	return fc.r.Float64() < p
}

func (fc *vcFillCtx) collSize() int {
	if fc.minimal {
		return 1
	}
	max := 4
	if fc.depth >= 3 {
		max = 2
	}
	if fc.depth >= 5 {
		max = 1
	}
	// 0 is handled by the caller (nil vs empty)
	return 1 + fc.pick(max)
}

func (fc *vcFillCtx) intCorner(bits int) int64 {
	var min, max int64
	switch bits {
	case 8:
		min, max = math.MinInt8, math.MaxInt8
	case 16:
		min, max = math.MinInt16, math.MaxInt16
	case 32:
		min, max = math.MinInt32, math.MaxInt32
	default:
		min, max = math.MinInt64, math.MaxInt64
	}
	if fc.minimal {
		return 1
	}
	switch fc.pick(10) {
	case 0:
		return 0
	case 1:
		return 1
	case 2:
		return -1
	case 3:
		return min
	case 4:
		return max
	case 5, 6:
		return int64(fc.pick(100))
	case 7:
		return int64(fc.pick(70000)) % (max/2 + 1)
	default:
		x := fc.r.Int63()
		if fc.pick(2) == 0 {
			x = -x
		}
		if bits < 64 {
			span := max - min + 1
			x = min + ((x%span)+span)%span
		}
		return x
	}
}

const vcAlphabet = "abcdefghijklmnopqrstuvwxyz0123456789-_."

func (fc *vcFillCtx) str() string {
	if fc.minimal {
		return "m"
	}
	switch fc.pick(12) {
	case 0, 1:
		return ""
	case 2:
		return "a"
	case 3:
		return "topic-1"
	case 4:
		// straddle the one-byte compact length (len+1 >= 128 needs two bytes)
		return strings.Repeat("L", 125+fc.pick(5))
	case 5:
		return "ünï-cødé ✓"
	default:
		n := 1 + fc.pick(12)
		var sb strings.Builder
		for i := 0; i < n; i++ {
			sb.WriteByte(vcAlphabet[fc.pick(len(vcAlphabet))])
		}
		return sb.String()
	}
}

func (fc *vcFillCtx) bytesVal() []byte {
	if fc.minimal {
		return []byte{0x6d}
	}
	switch fc.pick(10) {
	case 0, 1:
		return nil
	case 2:
		return []byte{}
	case 3:
		return []byte{0}
	case 4:
		b := make([]byte, 120+fc.pick(20))
		for i := range b {
			b[i] = byte('A' + i%7)
		}
		return b
	default:
		b := make([]byte, 1+fc.pick(16))
		fc.r.Read(b)
		return b
	}
}

func (fc *vcFillCtx) timeVal() time.Time {
	if fc.minimal {
		return time.Unix(1, 0)
	}
	switch fc.pick(8) {
	case 0, 1:
		return time.Time{}
	case 2:
		return time.Unix(0, 0)
	case 3:
		return time.Unix(0, int64(time.Millisecond))
	case 4:
		// far future but inside what UnixNano can express
		return time.Unix(9000000000, 999*int64(time.Millisecond))
	default:
		ms := int64(1600000000000) + int64(fc.pick(1000000000))
		return time.Unix(ms/1000, (ms%1000)*int64(time.Millisecond))
	}
}

func (fc *vcFillCtx) durVal() time.Duration {
	if fc.minimal {
		return time.Millisecond
	}
	switch fc.pick(8) {
	case 0, 1:
		return 0
	case 2:
		return time.Millisecond
	case 3:
		return -time.Millisecond
	case 4:
		return time.Duration(math.MaxInt32) * time.Millisecond
	case 5:
		return 30 * time.Second
	default:
		return time.Duration(fc.pick(100000)) * time.Millisecond
	}
}

// the empty host is left out: FindCoordinatorResponse.decode reads ":0" as "no coordinator"
var vcHosts = []string{"localhost", "10.0.0.1", "broker-1.example.com", "::1", "h"}

func (fc *vcFillCtx) broker() *Broker {
	b := &Broker{}
	b.id = int32(fc.intCorner(32))
	host := vcHosts[fc.pick(len(vcHosts))]
	ports := []int{0, 1, 9092, 65535}
	port := ports[fc.pick(len(ports))]
	if strings.Contains(host, ":") {
		b.addr = fmt.Sprintf("[%s]:%d", host, port)
	} else {
		b.addr = fmt.Sprintf("%s:%d", host, port)
	}
	if fc.chance(0.6) {
		s := fc.str()
		b.rack = &s
	}
	return b
}

// vcFill fills the settable value v. owner/field name the struct field it
// sits in ("" for elements).
func vcFill(v reflect.Value, fc *vcFillCtx) {
	v = vcSettable(v)
	t := v.Type()
	if fc.flat() {
		switch t {
		case vcTypeTime, vcTypeDuration:
			v.Set(reflect.Zero(t))
			return
		case vcTypeBytes:
			if fc.plan == "zero" {
				v.Set(reflect.Zero(t))
			} else {
				v.SetBytes([]byte{})
			}
			return
		case vcTypeBrokerPtr:
			v.Set(reflect.ValueOf(&Broker{id: 0, addr: "h:1"}))
			return
		case vcTypeBroker:
			v.Set(reflect.ValueOf(&Broker{id: 0, addr: "h:1"}).Elem())
			return
		}
	}
	switch t {
	case vcTypeTime:
		v.Set(reflect.ValueOf(fc.timeVal()))
		return
	case vcTypeDuration:
		v.SetInt(int64(fc.durVal()))
		return
	case vcTypeBrokerPtr:
		v.Set(reflect.ValueOf(fc.broker()))
		return
	case vcTypeBroker:
		v.Set(reflect.ValueOf(fc.broker()).Elem())
		return
	case vcTypeBytes:
		v.SetBytes(fc.bytesVal())
		return
	case vcTypeRecords:
		vcFillRecords(v, fc)
		return
	}
	if vals, ok := vcEnumRange[t.Name()]; ok {
		x := vals[fc.pick(len(vals))]
		if fc.flat() {
			x = vals[0]
		}
		v.SetInt(x)
		return
	}
	if t.Name() == "KError" {
		x := vcKErrors[fc.pick(len(vcKErrors))]
		if fc.flat() {
			x = 0
		}
		v.SetInt(x)
		return
	}
	if fc.flat() {
		switch t.Kind() {
		case reflect.Ptr:
			et := t.Elem()
			if fc.plan == "zero" && (et.Kind() != reflect.Struct || et == vcTypeTime) {
				v.Set(reflect.Zero(t))
				return
			}
			nv := reflect.New(et)
			vcFill(nv.Elem(), fc)
			v.Set(nv)
		case reflect.Slice:
			if fc.plan == "zero" {
				v.Set(reflect.Zero(t))
			} else {
				v.Set(reflect.MakeSlice(t, 0, 0))
			}
		case reflect.Map:
			if fc.plan == "zero" {
				v.Set(reflect.Zero(t))
			} else {
				v.Set(reflect.MakeMap(t))
			}
		case reflect.Struct:
			vcFillStruct(v, fc)
		case reflect.Array:
			for i := 0; i < v.Len(); i++ {
				vcFill(v.Index(i), fc)
			}
		default:
			v.Set(reflect.Zero(t))
		}
		return
	}
	switch t.Kind() {
	case reflect.Bool:
		v.SetBool(fc.minimal || fc.pick(2) == 0)
	case reflect.Int8:
		v.SetInt(fc.intCorner(8))
	case reflect.Int16:
		v.SetInt(fc.intCorner(16))
	case reflect.Int32, reflect.Int:
		// Go int fields are written as int32 (or narrower) by every encoder that has one
		v.SetInt(fc.intCorner(32))
	case reflect.Int64:
		v.SetInt(fc.intCorner(64))
	case reflect.Uint8:
		v.SetUint(uint64(fc.intCorner(8)) & 0xff)
	case reflect.Uint16:
		v.SetUint(uint64(fc.intCorner(16)) & 0xffff)
	case reflect.Uint32, reflect.Uint:
		v.SetUint(uint64(fc.intCorner(32)) & 0xffffffff)
	case reflect.Uint64:
		v.SetUint(uint64(fc.intCorner(64)))
	case reflect.Float32, reflect.Float64:
		v.SetFloat(float64(fc.pick(1000)) / 8)
	case reflect.String:
		v.SetString(fc.str())
	case reflect.Ptr:
		et := t.Elem()
		if et.Kind() != reflect.Struct || et == vcTypeTime {
			// nullable scalar
			if !fc.minimal && fc.chance(0.3) {
				v.Set(reflect.Zero(t))
				return
			}
		}
		nv := reflect.New(et)
		fc.depth++
		vcFill(nv.Elem(), fc)
		fc.depth--
		v.Set(nv)
	case reflect.Slice:
		if !fc.minimal && fc.plan != "snappyempty" && fc.plan != "many" {
			switch fc.pick(8) {
			case 0:
				v.Set(reflect.Zero(t))
				return
			case 1:
				v.Set(reflect.MakeSlice(t, 0, 0))
				return
			}
		}
		n := fc.collSize()
		s := reflect.MakeSlice(t, n, n)
		fc.depth++
		for i := 0; i < n; i++ {
			vcFill(s.Index(i), fc)
		}
		fc.depth--
		v.Set(s)
	case reflect.Map:
		if !fc.minimal && fc.plan != "snappyempty" && fc.plan != "many" {
			switch fc.pick(8) {
			case 0:
				v.Set(reflect.Zero(t))
				return
			case 1:
				v.Set(reflect.MakeMap(t))
				return
			}
		}
		n := fc.collSize()
		m := reflect.MakeMapWithSize(t, n)
		fc.depth++
		for i := 0; i < n; i++ {
			k := reflect.New(t.Key()).Elem()
			vcFillKey(k, fc, i)
			e := reflect.New(t.Elem()).Elem()
			vcFill(e, fc)
			m.SetMapIndex(k, e)
		}
		fc.depth--
		v.Set(m)
	case reflect.Struct:
		vcFillStruct(v, fc)
	case reflect.Array:
		for i := 0; i < v.Len(); i++ {
			vcFill(v.Index(i), fc)
		}
	case reflect.Interface, reflect.Chan, reflect.Func, reflect.UnsafePointer:
		// left nil
	}
}

func vcFillKey(k reflect.Value, fc *vcFillCtx, i int) {
	switch k.Kind() {
	case reflect.String:
		if i == 0 && !fc.minimal && fc.chance(0.1) {
			k.SetString("")
			return
		}
		names := []string{"t", "topic", "my.topic_x", "é"}
		k.SetString(fmt.Sprintf("%s%d", names[fc.pick(len(names))], i))
	case reflect.Int, reflect.Int8, reflect.Int16, reflect.Int32, reflect.Int64:
		if vals, ok := vcEnumRange[k.Type().Name()]; ok {
			k.SetInt(vals[i%len(vals)])
			return
		}
		if i == 0 && !fc.minimal {
			switch fc.pick(6) {
			case 0:
				k.SetInt(-1)
				return
			case 1:
				k.SetInt(math.MaxInt32)
				return
			}
		}
		k.SetInt(int64(i) + int64(fc.pick(3))*10)
	default:
		vcFill(k, fc)
	}
}

func vcFillStruct(v reflect.Value, fc *vcFillCtx) {
	t := v.Type()
	for i := 0; i < t.NumField(); i++ {
		f := t.Field(i)
		fv := vcSettable(v.Field(i))
		switch vcRuleFor(t, f) {
		case vcRulePin:
			fv.SetInt(int64(fc.version))
			continue
		case vcRuleCache, vcRuleZero:
			continue
		case vcRuleParam:
			continue // set by the struct's hook
		}
		if ff, ok := vcFieldFill[t.Name()+"."+f.Name]; ok {
			ff(fv, fc)
			continue
		}
		vcFill(fv, fc)
	}
	if h, ok := vcStructHooks[t.Name()]; ok {
		h(v, fc)
	}
}

// vcFieldFill narrows single fields to the domain their encoder accepts.
var vcFieldFill = map[string]func(v reflect.Value, fc *vcFillCtx){
	// encode derives the salted password with this many HMAC rounds on every pass (Kafka allows
	// 4096..16384); MaxInt32 rounds would take minutes per value, so the count is kept small
	"AlterUserScramCredentialsUpsert.Iterations": func(v reflect.Value, fc *vcFillCtx) {
		if fc.flat() {
			v.SetInt(0)
			return
		}
		v.SetInt([]int64{0, 1, 2, 3, 64}[fc.pick(5)])
	},
	// decode maps the empty error message to nil on purpose (acl_describe_response.go: if errmsg != "")
	"DescribeAclsResponse.ErrMsg": func(v reflect.Value, fc *vcFillCtx) {
		if fc.chance(0.3) || fc.flat() {
			v.Set(reflect.Zero(v.Type()))
			return
		}
		s := fc.str()
		if s == "" {
			s = "e"
		}
		v.Set(reflect.ValueOf(&s))
	},
	// nil is a legal "no coordinator" (encode writes NoNode for it)
	"FindCoordinatorResponse.Coordinator":  vcFillNullableBroker,
	"ConsumerMetadataResponse.Coordinator": vcFillNullableBroker,
	// "requires v7+": encode refuses it below
	"OffsetFetchRequest.RequireStable": func(v reflect.Value, fc *vcFillCtx) {
		v.SetBool(fc.version >= 7 && !fc.flat() && fc.pick(2) == 0)
	},
	// scramFormatter knows SHA-256 and SHA-512 only, anything else is an encode error
	"AlterUserScramCredentialsUpsert.Mechanism": func(v reflect.Value, fc *vcFillCtx) {
		v.SetInt(int64(1 + fc.pick(2)))
	},
}

func vcFillNullableBroker(v reflect.Value, fc *vcFillCtx) {
	if fc.plan == "zero" || (!fc.minimal && !fc.flat() && fc.chance(0.25)) {
		v.Set(reflect.Zero(v.Type()))
		return
	}
	if fc.flat() {
		v.Set(reflect.ValueOf(&Broker{id: 0, addr: "h:1"}))
		return
	}
	v.Set(reflect.ValueOf(fc.broker()))
}

// vcNilIsUnset lists pointer fields whose nil is an alternative spelling the
// decoder does not give back: a nil in the sent value is not held against the
// decoded one.
var vcNilIsUnset = map[string]bool{
	// encode writes NoNode{-1, ":-1"} for nil; decode returns a Broker equal to NoNode
	"FindCoordinatorResponse.Coordinator": true,
	// nil means "use the deprecated CoordinatorID/Host/Port"; decode fills both forms
	"ConsumerMetadataResponse.Coordinator": true,
}

// vcStructHooks put unions, alternative field pairs and format parameters
// into the domain of the type after the generic fill.
var vcStructHooks map[string]func(v reflect.Value, fc *vcFillCtx)

func init() {
	vcStructHooks = map[string]func(v reflect.Value, fc *vcFillCtx){
		"RecordBatch":              vcHookRecordBatch,
		"Message":                  vcHookMessage,
		"FetchResponseBlock":       vcHookFetchResponseBlock,
		"JoinGroupRequest":         vcHookJoinGroupRequest,
		"OffsetRequest":            vcHookOffsetRequest,
		"ConsumerMetadataResponse": vcHookConsumerMetadataResponse,
	}
}

func vcLevelFor(codec CompressionCodec, fc *vcFillCtx) int {
	if codec == CompressionGZIP {
		lv := []int{CompressionLevelDefault, -2, -1, 0, 1, 2, 3, 4, 5, 6, 7, 8, 9}
		return lv[fc.pick(len(lv))]
	}
	lv := []int{CompressionLevelDefault, 0, 1, 3, 9}
	return lv[fc.pick(len(lv))]
}

func vcHookRecordBatch(v reflect.Value, fc *vcFillCtx) {
	b := v.Addr().Interface().(*RecordBatch)
	b.Version = 2
	if fc.plan == "snappyempty" {
		b.Codec = CompressionSnappy
		b.Records = nil
	}
	b.CompressionLevel = vcLevelFor(b.Codec, fc)
	if fc.flat() {
		b.CompressionLevel = CompressionLevelDefault
	}
	for i, r := range b.Records {
		if r == nil {
			b.Records[i] = &Record{}
		}
	}
	if fc.plan == "many" || (fc.many && fc.chance(0.04)) {
		if fc.plan == "many" {
			b.Codec = []CompressionCodec{CompressionGZIP, CompressionZSTD, CompressionLZ4, CompressionSnappy}[fc.pick(4)]
			b.CompressionLevel = CompressionLevelDefault
		}
		// a large batch of small, similar records
		n := 40 + fc.pick(160)
		if fc.plan == "many" {
			n = 150 + fc.pick(50)
		}
		b.Records = make([]*Record, n)
		for i := range b.Records {
			// identical records: what a producer sending the same small payload in a loop builds
			// (offset deltas are assigned by produceSet.buildRequest, not by the batch)
			b.Records[i] = &Record{Value: []byte("v")}
		}
		b.LastOffsetDelta = int32(n - 1)
	}
}

func vcHookMessage(v reflect.Value, fc *vcFillCtx) {
	m := v.Addr().Interface().(*Message)
	switch fc.recArm {
	case "legacy0":
		m.Version = 0
	case "legacy1":
		m.Version = 1
	default:
		m.Version = int8(fc.pick(2))
	}
	if fc.plan == "snappyempty" {
		m.Codec = CompressionSnappy
		m.Value = []byte{}
	}
	m.CompressionLevel = vcLevelFor(m.Codec, fc)
	if fc.flat() {
		m.CompressionLevel = CompressionLevelDefault
	}
	m.Set = nil
	if m.Version == 0 {
		// magic 0 has neither a timestamp nor a timestamp-type attribute bit
		m.LogAppendTime = false
	}
	if m.Codec != CompressionNone && m.Value != nil {
		// a compressed message is a wrapper: its value is an encoded message set
		inner := &MessageSet{}
		n := fc.pick(4)
		if fc.plan == "snappyempty" {
			n = 0
		}
		for i := 0; i < n; i++ {
			im := &Message{Version: m.Version, Key: fc.bytesVal(), Value: fc.bytesVal(), LogAppendTime: m.Version == 1 && fc.pick(4) == 0}
			if m.Version == 1 {
				im.Timestamp = fc.timeVal()
			}
			inner.Messages = append(inner.Messages, &MessageBlock{Offset: int64(i), Msg: im})
		}
		raw, err := encode(inner, nil)
		if err != nil {
			raw = []byte{}
		}
		if raw == nil {
			raw = []byte{}
		}
		m.Value = raw
	}
}

func vcFillRecords(v reflect.Value, fc *vcFillCtx) {
	r := v.Addr().Interface().(*Records)
	*r = Records{}
	arm := fc.recArm
	if arm == "" || arm == "any" {
		arms := []string{"legacy0", "legacy1", "default"}
		arm = arms[fc.pick(3)]
	}
	save := fc.recArm
	fc.recArm = arm
	fc.depth++
	if arm == "default" {
		b := &RecordBatch{}
		vcFill(reflect.ValueOf(b).Elem(), fc)
		r.RecordBatch = b
		r.recordsType = defaultRecords
	} else {
		ms := &MessageSet{}
		vcFill(reflect.ValueOf(ms).Elem(), fc)
		r.MsgSet = ms
		r.recordsType = legacyRecords
	}
	fc.depth--
	fc.recArm = save
	if fc.chance(0.3) {
		r.recordsType = unknownRecords // encode derives it from the arm that is set
	}
}

func vcRecordsCount(r *Records) int {
	if r.RecordBatch != nil {
		return len(r.RecordBatch.Records)
	}
	if r.MsgSet != nil {
		return len(r.MsgSet.Messages)
	}
	return 0
}

func vcHookFetchResponseBlock(v reflect.Value, fc *vcFillCtx) {
	b := v.Addr().Interface().(*FetchResponseBlock)
	// The decoder keeps a record set only when it holds at least one record and
	// reads consecutive legacy messages as one set, so the domain is: non-empty
	// sets, no two adjacent legacy sets. Before v4 brokers only send legacy sets.
	var set []*Records
	n := 0
	if !fc.minimal {
		n = fc.pick(4)
	}
	if fc.flat() {
		n = 0
	}
	if fc.plan == "snappyempty" || fc.plan == "many" {
		n = 1
	}
	lastLegacy := false
	for i := 0; i < n; i++ {
		arm := "default"
		if fc.version < 4 {
			arm = []string{"legacy0", "legacy1"}[fc.pick(2)]
		} else if fc.plan == "many" {
			// keep the record batch arm
		} else if (!lastLegacy && fc.chance(0.3)) || fc.plan == "snappyempty" {
			// (an empty snappy batch would be dropped by the decoder; a wrapper message around nothing is kept)
			arm = []string{"legacy0", "legacy1"}[fc.pick(2)]
		}
		if arm != "default" && lastLegacy {
			break
		}
		save := fc.recArm
		fc.recArm = arm
		var r *Records
		for try := 0; try < 8; try++ {
			r = &Records{}
			vcFillRecords(reflect.ValueOf(r).Elem(), fc)
			if vcRecordsCount(r) > 0 {
				break
			}
			r = nil
		}
		fc.recArm = save
		if r == nil {
			continue
		}
		lastLegacy = arm != "default"
		set = append(set, r)
	}
	b.RecordsSet = set
	b.Records = nil
	if len(set) > 0 && fc.chance(0.5) {
		b.Records = set[0] // what decode does
	}
	if len(set) == 0 && (fc.chance(0.3) || fc.plan == "empty") && fc.plan != "zero" {
		b.RecordsSet = []*Records{}
	}
	b.Partial = false
}

// SetReplicaID is the only writer of (replicaID, isReplicaIDSet); decode calls
// it for ids >= 0 only, so a set negative id is not a value the API produces.
func vcHookOffsetRequest(v reflect.Value, fc *vcFillCtx) {
	r := v.Addr().Interface().(*OffsetRequest)
	if r.isReplicaIDSet {
		if r.replicaID < 0 {
			r.replicaID = -(r.replicaID + 1)
		}
	} else {
		r.replicaID = 0
	}
}

// Coordinator and the deprecated CoordinatorID/Host/Port are two spellings of
// one thing: either the broker (with the deprecated fields mirroring it, as
// decode leaves them) or the deprecated fields alone.
func vcHookConsumerMetadataResponse(v reflect.Value, fc *vcFillCtx) {
	r := v.Addr().Interface().(*ConsumerMetadataResponse)
	if r.Coordinator != nil {
		host, port, _ := vcSplitAddr(r.Coordinator.addr)
		r.CoordinatorID, r.CoordinatorHost, r.CoordinatorPort = r.Coordinator.id, host, port
		return
	}
	b := fc.broker()
	host, port, _ := vcSplitAddr(b.addr)
	r.CoordinatorID, r.CoordinatorHost, r.CoordinatorPort = b.id, host, port
}

func vcSplitAddr(addr string) (string, int32, bool) {
	i := strings.LastIndex(addr, ":")
	if i < 0 {
		return addr, 0, false
	}
	host := strings.TrimSuffix(strings.TrimPrefix(addr[:i], "["), "]")
	var port int32
	fmt.Sscanf(addr[i+1:], "%d", &port)
	return host, port, true
}

func vcHookJoinGroupRequest(v reflect.Value, fc *vcFillCtx) {
	r := v.Addr().Interface().(*JoinGroupRequest)
	// deprecated map vs ordered list: one arm at a time (encode refuses both)
	if len(r.GroupProtocols) > 0 && len(r.OrderedGroupProtocols) > 0 {
		if fc.pick(2) == 0 {
			r.GroupProtocols = nil
		} else {
			r.OrderedGroupProtocols = nil
		}
	}
	// protocol names are keys (Kafka's JoinGroupRequestProtocol collection is keyed by name)
	seen := map[string]bool{}
	for i, p := range r.OrderedGroupProtocols {
		for seen[p.Name] {
			p.Name = fmt.Sprintf("%s-%d", p.Name, i)
		}
		seen[p.Name] = true
	}
}

// ---------------------------------------------------------------- clone

func vcClone(src reflect.Value) reflect.Value {
	dst := reflect.New(src.Type()).Elem()
	vcCloneInto(dst, src)
	return dst
}

func vcCloneInto(dst, src reflect.Value) {
	src = vcClean(src)
	dst = vcSettable(dst)
	t := src.Type()
	switch t.Kind() {
	case reflect.Ptr:
		if src.IsNil() {
			return
		}
		if t == vcTypeBrokerPtr {
			sb := src.Interface().(*Broker)
			nb := &Broker{id: sb.id, addr: sb.addr}
			if sb.rack != nil {
				s := *sb.rack
				nb.rack = &s
			}
			dst.Set(reflect.ValueOf(nb))
			return
		}
		n := reflect.New(t.Elem())
		vcCloneInto(n.Elem(), src.Elem())
		dst.Set(n)
	case reflect.Struct:
		if t == vcTypeTime {
			dst.Set(src)
			return
		}
		for i := 0; i < t.NumField(); i++ {
			vcCloneInto(dst.Field(i), src.Field(i))
		}
	case reflect.Slice:
		if src.IsNil() {
			return
		}
		n := src.Len()
		s := reflect.MakeSlice(t, n, n)
		if t.Elem().Kind() == reflect.Uint8 {
			reflect.Copy(s, src)
		} else {
			for i := 0; i < n; i++ {
				vcCloneInto(s.Index(i), src.Index(i))
			}
		}
		dst.Set(s)
	case reflect.Map:
		if src.IsNil() {
			return
		}
		m := reflect.MakeMapWithSize(t, src.Len())
		it := src.MapRange()
		for it.Next() {
			k := vcClone(vcAddr(it.Key()))
			e := vcClone(vcAddr(it.Value()))
			m.SetMapIndex(k, e)
		}
		dst.Set(m)
	case reflect.Interface:
		if src.IsNil() {
			return
		}
		dst.Set(vcClone(src.Elem()))
	case reflect.Array:
		for i := 0; i < src.Len(); i++ {
			vcCloneInto(dst.Index(i), src.Index(i))
		}
	default:
		dst.Set(src)
	}
}

// vcCollectCaches returns the settable encoder-scratch fields (vcRuleCache)
// below v, so that a working copy can be encoded repeatedly; ok is false when
// one of them sits in a place that cannot be addressed (a struct stored by
// value in a map).
func vcCollectCaches(v reflect.Value, out *[]reflect.Value) bool {
	v = vcClean(v)
	switch v.Kind() {
	case reflect.Ptr, reflect.Interface:
		if v.IsNil() {
			return true
		}
		if v.Type() == vcTypeBrokerPtr {
			return true
		}
		return vcCollectCaches(v.Elem(), out)
	case reflect.Struct:
		t := v.Type()
		if t == vcTypeTime || t == vcTypeBroker {
			return true
		}
		for i := 0; i < t.NumField(); i++ {
			if vcRuleFor(t, t.Field(i)) == vcRuleCache {
				if !v.CanAddr() {
					return false
				}
				*out = append(*out, vcSettable(v.Field(i)))
				continue
			}
			if !vcCollectCaches(v.Field(i), out) {
				return false
			}
		}
	case reflect.Slice, reflect.Array:
		if v.Type().Elem().Kind() == reflect.Uint8 {
			return true
		}
		for i := 0; i < v.Len(); i++ {
			if !vcCollectCaches(v.Index(i), out) {
				return false
			}
		}
	case reflect.Map:
		it := v.MapRange()
		for it.Next() {
			if !vcCollectCaches(it.Value(), out) {
				return false
			}
		}
	}
	return true
}

// vcCopyParams copies compression levels from src into the structurally
// matching places of dst.
func vcCopyParams(src, dst reflect.Value) {
	src, dst = vcClean(src), vcSettable(dst)
	if src.Type() != dst.Type() {
		return
	}
	switch src.Kind() {
	case reflect.Ptr, reflect.Interface:
		if src.IsNil() || dst.IsNil() {
			return
		}
		vcCopyParams(src.Elem(), dst.Elem())
	case reflect.Struct:
		t := src.Type()
		if t == vcTypeTime || t == vcTypeBroker {
			return
		}
		for i := 0; i < t.NumField(); i++ {
			if t.Field(i).Name == "CompressionLevel" && vcRuleFor(t, t.Field(i)) == vcRuleParam {
				vcSettable(dst.Field(i)).SetInt(vcClean(src.Field(i)).Int())
				continue
			}
			vcCopyParams(src.Field(i), dst.Field(i))
		}
	case reflect.Slice, reflect.Array:
		if src.Type().Elem().Kind() == reflect.Uint8 {
			return
		}
		n := src.Len()
		if dst.Len() < n {
			n = dst.Len()
		}
		for i := 0; i < n; i++ {
			vcCopyParams(src.Index(i), dst.Index(i))
		}
	case reflect.Map:
		if src.IsNil() || dst.IsNil() {
			return
		}
		it := src.MapRange()
		for it.Next() {
			dv := dst.MapIndex(it.Key())
			if !dv.IsValid() {
				continue
			}
			tmp := vcAddr(dv)
			if !tmp.CanAddr() {
				continue
			}
			vcCopyParams(vcAddr(it.Value()), tmp)
			dst.SetMapIndex(it.Key(), tmp)
		}
	}
}

// ---------------------------------------------------------------- comparison

// vcDiffIgnoreParams makes vcDiff skip discriminators/parameters too (used to
// tell whether encode changed anything that matters in the value it was given).
var vcDiffIgnoreParams bool

// vcDiff returns "" when a and b are equal up to nil-vs-empty collections, else
// the path of the first difference with both sides written out.
func vcDiff(a, b reflect.Value, path string) string {
	a, b = vcClean(a), vcClean(b)
	t := a.Type()
	if t != b.Type() {
		return fmt.Sprintf("%s: type %s vs %s", path, t, b.Type())
	}
	switch t.Kind() {
	case reflect.Ptr:
		if a.IsNil() || b.IsNil() {
			if a.IsNil() != b.IsNil() {
				return fmt.Sprintf("%s: nil=%v vs nil=%v", path, a.IsNil(), b.IsNil())
			}
			return ""
		}
		if t == vcTypeBrokerPtr {
			x, y := a.Interface().(*Broker), b.Interface().(*Broker)
			if x.id != y.id || x.addr != y.addr || (x.rack == nil) != (y.rack == nil) || (x.rack != nil && *x.rack != *y.rack) {
				return fmt.Sprintf("%s: broker %d/%s/%v vs %d/%s/%v", path, x.id, x.addr, vcStrPtr(x.rack), y.id, y.addr, vcStrPtr(y.rack))
			}
			return ""
		}
		return vcDiff(a.Elem(), b.Elem(), path)
	case reflect.Struct:
		if t == vcTypeTime {
			x, y := a.Interface().(time.Time), b.Interface().(time.Time)
			if !x.Equal(y) {
				return fmt.Sprintf("%s: %v vs %v", path, x.UTC(), y.UTC())
			}
			return ""
		}
		for i := 0; i < t.NumField(); i++ {
			if rl := vcRuleFor(t, t.Field(i)); rl == vcRuleCache || (vcDiffIgnoreParams && rl == vcRuleParam) {
				continue
			}
			if d := vcDiff(a.Field(i), b.Field(i), path+"."+t.Field(i).Name); d != "" {
				return d
			}
		}
		return ""
	case reflect.Slice:
		if a.Len() != b.Len() {
			return fmt.Sprintf("%s: len %d vs %d", path, a.Len(), b.Len())
		}
		if t.Elem().Kind() == reflect.Uint8 {
			if !bytes.Equal(a.Bytes(), b.Bytes()) {
				return fmt.Sprintf("%s: %x vs %x", path, vcTrunc(a.Bytes(), 24), vcTrunc(b.Bytes(), 24))
			}
			return ""
		}
		for i := 0; i < a.Len(); i++ {
			if d := vcDiff(a.Index(i), b.Index(i), fmt.Sprintf("%s[%d]", path, i)); d != "" {
				return d
			}
		}
		return ""
	case reflect.Map:
		if a.Len() != b.Len() {
			return fmt.Sprintf("%s: len %d vs %d", path, a.Len(), b.Len())
		}
		it := a.MapRange()
		for it.Next() {
			bv := b.MapIndex(it.Key())
			if !bv.IsValid() {
				return fmt.Sprintf("%s[%v]: missing", path, it.Key())
			}
			if d := vcDiff(vcAddr(it.Value()), vcAddr(bv), fmt.Sprintf("%s[%v]", path, it.Key())); d != "" {
				return d
			}
		}
		return ""
	case reflect.Interface:
		if a.IsNil() || b.IsNil() {
			if a.IsNil() != b.IsNil() {
				return path + ": nil interface vs not"
			}
			return ""
		}
		return vcDiff(a.Elem(), b.Elem(), path)
	case reflect.Array:
		for i := 0; i < a.Len(); i++ {
			if d := vcDiff(a.Index(i), b.Index(i), fmt.Sprintf("%s[%d]", path, i)); d != "" {
				return d
			}
		}
		return ""
	case reflect.Bool:
		if a.Bool() != b.Bool() {
			return fmt.Sprintf("%s: %v vs %v", path, a.Bool(), b.Bool())
		}
	case reflect.Int, reflect.Int8, reflect.Int16, reflect.Int32, reflect.Int64:
		if a.Int() != b.Int() {
			return fmt.Sprintf("%s: %d vs %d", path, a.Int(), b.Int())
		}
	case reflect.Uint, reflect.Uint8, reflect.Uint16, reflect.Uint32, reflect.Uint64:
		if a.Uint() != b.Uint() {
			return fmt.Sprintf("%s: %d vs %d", path, a.Uint(), b.Uint())
		}
	case reflect.Float32, reflect.Float64:
		if a.Float() != b.Float() {
			return fmt.Sprintf("%s: %v vs %v", path, a.Float(), b.Float())
		}
	case reflect.String:
		if a.String() != b.String() {
			return fmt.Sprintf("%s: %q vs %q", path, vcTruncS(a.String(), 40), vcTruncS(b.String(), 40))
		}
	}
	return ""
}

func vcStrPtr(s *string) string {
	if s == nil {
		return "<nil>"
	}
	return fmt.Sprintf("%q", *s)
}

func vcTrunc(b []byte, n int) []byte {
	if len(b) > n {
		return b[:n]
	}
	return b
}

func vcTruncS(s string, n int) string {
	if len(s) > n {
		return s[:n] + "…"
	}
	return s
}

// ---------------------------------------------------------------- leaves

const (
	vcStepField = iota
	vcStepIndex
	vcStepKey
	vcStepDeref
)

type vcStep struct {
	kind int
	idx  int
	key  reflect.Value
	name string
}

const (
	vcLeafScalar = iota
	vcLeafBytes
	vcLeafTime
	vcLeafLen
	vcLeafNil
)

type vcLeaf struct {
	steps   []vcStep
	kind    int
	nonZero bool
	owner   string // name of the struct type holding the last field of the path
}

func (l *vcLeaf) lastField() string {
	for i := len(l.steps) - 1; i >= 0; i-- {
		if l.steps[i].kind == vcStepField {
			return l.steps[i].name
		}
	}
	return ""
}

// generic path (indices and keys dropped): stable across seeds, used in Attr
func (l *vcLeaf) generic() string {
	var sb strings.Builder
	for _, s := range l.steps {
		switch s.kind {
		case vcStepField:
			if sb.Len() > 0 {
				sb.WriteByte('.')
			}
			sb.WriteString(s.name)
		case vcStepIndex, vcStepKey:
			sb.WriteString("[]")
		}
	}
	switch l.kind {
	case vcLeafLen:
		sb.WriteString("#len")
	case vcLeafNil:
		sb.WriteString("#nil")
	}
	return sb.String()
}

func (l *vcLeaf) concrete() string {
	var sb strings.Builder
	for _, s := range l.steps {
		switch s.kind {
		case vcStepField:
			if sb.Len() > 0 {
				sb.WriteByte('.')
			}
			sb.WriteString(s.name)
		case vcStepIndex:
			fmt.Fprintf(&sb, "[%d]", s.idx)
		case vcStepKey:
			fmt.Fprintf(&sb, "[%v]", s.key)
		}
	}
	switch l.kind {
	case vcLeafLen:
		sb.WriteString("#len")
	case vcLeafNil:
		sb.WriteString("#nil")
	}
	return sb.String()
}

func vcAppendStep(steps []vcStep, s vcStep) []vcStep {
	n := make([]vcStep, len(steps)+1)
	copy(n, steps)
	n[len(steps)] = s
	return n
}

func vcLeaves(v reflect.Value, steps []vcStep, owner string, out *[]vcLeaf) {
	v = vcClean(v)
	t := v.Type()
	switch t.Kind() {
	case reflect.Ptr:
		*out = append(*out, vcLeaf{owner: owner, steps: steps, kind: vcLeafNil, nonZero: !v.IsNil()})
		if v.IsNil() {
			return
		}
		vcLeaves(v.Elem(), vcAppendStep(steps, vcStep{kind: vcStepDeref}), owner, out)
	case reflect.Struct:
		if t == vcTypeTime {
			*out = append(*out, vcLeaf{owner: owner, steps: steps, kind: vcLeafTime, nonZero: !v.Interface().(time.Time).IsZero()})
			return
		}
		for i := 0; i < t.NumField(); i++ {
			f := t.Field(i)
			if vcRuleFor(t, f) != vcRuleNone {
				continue
			}
			if t == vcTypeBroker && f.Name != "id" && f.Name != "addr" && f.Name != "rack" {
				continue
			}
			vcLeaves(v.Field(i), vcAppendStep(steps, vcStep{kind: vcStepField, idx: i, name: f.Name}), t.Name(), out)
		}
	case reflect.Slice:
		if t.Elem().Kind() == reflect.Uint8 {
			*out = append(*out, vcLeaf{owner: owner, steps: steps, kind: vcLeafBytes, nonZero: v.Len() > 0})
			return
		}
		*out = append(*out, vcLeaf{owner: owner, steps: steps, kind: vcLeafLen, nonZero: v.Len() > 0})
		for i := 0; i < v.Len(); i++ {
			vcLeaves(v.Index(i), vcAppendStep(steps, vcStep{kind: vcStepIndex, idx: i}), owner, out)
		}
	case reflect.Map:
		*out = append(*out, vcLeaf{owner: owner, steps: steps, kind: vcLeafLen, nonZero: v.Len() > 0})
		keys := v.MapKeys()
		sort.Slice(keys, func(i, j int) bool { return fmt.Sprint(keys[i]) < fmt.Sprint(keys[j]) })
		for _, k := range keys {
			e := reflect.New(t.Elem()).Elem()
			e.Set(v.MapIndex(k))
			vcLeaves(e, vcAppendStep(steps, vcStep{kind: vcStepKey, key: k}), owner, out)
		}
	case reflect.Array:
		for i := 0; i < v.Len(); i++ {
			vcLeaves(v.Index(i), vcAppendStep(steps, vcStep{kind: vcStepIndex, idx: i}), owner, out)
		}
	case reflect.Bool, reflect.Int, reflect.Int8, reflect.Int16, reflect.Int32, reflect.Int64,
		reflect.Uint, reflect.Uint8, reflect.Uint16, reflect.Uint32, reflect.Uint64,
		reflect.Float32, reflect.Float64, reflect.String:
		*out = append(*out, vcLeaf{owner: owner, steps: steps, kind: vcLeafScalar, nonZero: !v.IsZero()})
	}
}

// vcNav reads the value a path leads to (copy semantics for map elements).
func vcNav(v reflect.Value, steps []vcStep) (reflect.Value, bool) {
	v = vcClean(v)
	for _, s := range steps {
		switch s.kind {
		case vcStepField:
			if v.Kind() != reflect.Struct {
				return v, false
			}
			v = vcClean(v.Field(s.idx))
		case vcStepIndex:
			if s.idx >= v.Len() {
				return v, false
			}
			v = vcClean(v.Index(s.idx))
		case vcStepDeref:
			if v.IsNil() {
				return v, false
			}
			v = vcClean(v.Elem())
		case vcStepKey:
			if v.IsNil() {
				return v, false
			}
			e := v.MapIndex(s.key)
			if !e.IsValid() {
				return v, false
			}
			n := reflect.New(v.Type().Elem()).Elem()
			n.Set(e)
			v = n
		}
	}
	return v, true
}

// vcApply runs f on the settable value a path leads to, writing map elements back.
func vcApply(v reflect.Value, steps []vcStep, f func(reflect.Value) bool) bool {
	v = vcSettable(v)
	if len(steps) == 0 {
		return f(v)
	}
	s := steps[0]
	switch s.kind {
	case vcStepField:
		return vcApply(v.Field(s.idx), steps[1:], f)
	case vcStepIndex:
		if s.idx >= v.Len() {
			return false
		}
		return vcApply(v.Index(s.idx), steps[1:], f)
	case vcStepDeref:
		if v.IsNil() {
			return false
		}
		return vcApply(v.Elem(), steps[1:], f)
	case vcStepKey:
		if v.IsNil() {
			return false
		}
		e := v.MapIndex(s.key)
		if !e.IsValid() {
			return false
		}
		n := reflect.New(v.Type().Elem()).Elem()
		n.Set(e)
		ok := vcApply(n, steps[1:], f)
		v.SetMapIndex(s.key, n)
		return ok
	}
	return false
}

// vcPerturb changes exactly the given leaf of the value rooted at v.
func vcPerturb(root reflect.Value, l *vcLeaf, fc *vcFillCtx) bool {
	last := ""
	for i := len(l.steps) - 1; i >= 0; i-- {
		if l.steps[i].kind == vcStepField {
			last = l.steps[i].name
			break
		}
	}
	return vcApply(root, l.steps, func(v reflect.Value) bool {
		switch l.kind {
		case vcLeafScalar:
			if vals, ok := vcEnumRange[v.Type().Name()]; ok {
				cur := v.Int()
				for i, x := range vals {
					if x == cur {
						v.SetInt(vals[(i+1)%len(vals)])
						return true
					}
				}
				v.SetInt(vals[0])
				return true
			}
			switch v.Kind() {
			case reflect.Bool:
				v.SetBool(!v.Bool())
			case reflect.Int, reflect.Int8, reflect.Int16, reflect.Int32, reflect.Int64:
				step := int64(1)
				if v.Type() == vcTypeDuration {
					step = int64(time.Millisecond)
				}
				x := v.Int()
				if v.OverflowInt(x+step) || x+step < x || (v.Kind() == reflect.Int && x+step > math.MaxInt32) {
					v.SetInt(x - step)
				} else {
					v.SetInt(x + step)
				}
			case reflect.Uint, reflect.Uint8, reflect.Uint16, reflect.Uint32, reflect.Uint64:
				x := v.Uint()
				if v.OverflowUint(x+1) || x+1 < x {
					v.SetUint(x - 1)
				} else {
					v.SetUint(x + 1)
				}
			case reflect.Float32, reflect.Float64:
				v.SetFloat(v.Float() + 1)
			case reflect.String:
				if last == "addr" {
					v.SetString("x" + v.String()) // keep host:port parseable
				} else {
					v.SetString(v.String() + "x")
				}
			default:
				return false
			}
			return true
		case vcLeafBytes:
			b := v.Bytes()
			if len(b) == 0 {
				v.SetBytes([]byte{0x2a})
			} else {
				nb := append([]byte(nil), b...)
				nb[0] ^= 0x01
				v.SetBytes(nb)
			}
			return true
		case vcLeafTime:
			tm := v.Interface().(time.Time)
			if tm.IsZero() {
				tm = time.Unix(0, int64(time.Millisecond))
			} else {
				tm = tm.Add(time.Millisecond)
			}
			v.Set(reflect.ValueOf(tm))
			return true
		case vcLeafLen:
			if v.Kind() == reflect.Slice {
				if v.Len() > 0 {
					v.Set(v.Slice(0, v.Len()-1))
					return true
				}
				e := reflect.New(v.Type().Elem()).Elem()
				vcFill(e, fc)
				v.Set(reflect.Append(reflect.MakeSlice(v.Type(), 0, 1), e))
				return true
			}
			if v.Kind() == reflect.Map {
				if v.Len() > 0 {
					keys := v.MapKeys()
					sort.Slice(keys, func(i, j int) bool { return fmt.Sprint(keys[i]) < fmt.Sprint(keys[j]) })
					nm := reflect.MakeMapWithSize(v.Type(), v.Len())
					for _, k := range keys[:len(keys)-1] {
						nm.SetMapIndex(k, v.MapIndex(k))
					}
					v.Set(nm)
					return true
				}
				m := reflect.MakeMap(v.Type())
				k := reflect.New(v.Type().Key()).Elem()
				vcFillKey(k, fc, 1)
				e := reflect.New(v.Type().Elem()).Elem()
				vcFill(e, fc)
				m.SetMapIndex(k, e)
				v.Set(m)
				return true
			}
			return false
		case vcLeafNil:
			if !v.IsNil() {
				v.Set(reflect.Zero(v.Type()))
				return true
			}
			n := reflect.New(v.Type().Elem())
			vcFill(n.Elem(), fc)
			v.Set(n)
			return true
		}
		return false
	})
}

// vcLeafEqual compares one leaf of v0 with the same place in v1. When the way
// to the leaf already differs (a shorter collection, a nil pointer, a missing
// key) the difference is attributed to that ancestor, so that one lost
// collection is one finding and not one per leaf below it.
func vcLeafEqual(v0, v1 reflect.Value, l *vcLeaf) (bool, string, string) {
	a, b := vcClean(v0), vcClean(v1)
	prefix := func(n int, suffix string) string {
		pl := vcLeaf{steps: l.steps[:n]}
		return pl.generic() + suffix
	}
	concrete := func(n int, suffix string) string {
		pl := vcLeaf{steps: l.steps[:n]}
		return pl.concrete() + suffix
	}
	for si, s := range l.steps {
		switch s.kind {
		case vcStepField:
			a, b = vcClean(a.Field(s.idx)), vcClean(b.Field(s.idx))
		case vcStepDeref:
			if a.IsNil() {
				return true, "", ""
			}
			if b.IsNil() {
				if !l.nonZero {
					// a nil pointer stands for the all-zero value it would point to
					// (nil vs empty one level up); whether the pointer itself is
					// preserved is judged by its own #nil leaf
					return true, "", ""
				}
				return false, prefix(si, "#nil"), fmt.Sprintf("%s: sent non-nil, decoded nil", concrete(si, "#nil"))
			}
			a, b = vcClean(a.Elem()), vcClean(b.Elem())
		case vcStepIndex:
			if a.Len() != b.Len() {
				return false, prefix(si, "#len"), fmt.Sprintf("%s: sent %d, decoded %d", concrete(si, "#len"), a.Len(), b.Len())
			}
			if s.idx >= a.Len() {
				return true, "", ""
			}
			a, b = vcClean(a.Index(s.idx)), vcClean(b.Index(s.idx))
		case vcStepKey:
			if a.Len() != b.Len() {
				return false, prefix(si, "#len"), fmt.Sprintf("%s: sent %d, decoded %d", concrete(si, "#len"), a.Len(), b.Len())
			}
			av := a.MapIndex(s.key)
			if !av.IsValid() {
				return true, "", ""
			}
			bv := b.MapIndex(s.key)
			if !bv.IsValid() {
				return false, prefix(si, "#key"), fmt.Sprintf("%s: key %v is absent after decoding", concrete(si, ""), s.key)
			}
			a, b = vcAddr(av), vcAddr(bv)
		}
	}
	switch l.kind {
	case vcLeafLen:
		if a.Len() != b.Len() {
			return false, l.generic(), fmt.Sprintf("%s: sent %d, decoded %d", l.concrete(), a.Len(), b.Len())
		}
	case vcLeafNil:
		if a.IsNil() && vcNilIsUnset[l.owner+"."+l.lastField()] {
			return true, "", ""
		}
		if a.IsNil() != b.IsNil() {
			return false, l.generic(), fmt.Sprintf("%s: sent nil=%v, decoded nil=%v", l.concrete(), a.IsNil(), b.IsNil())
		}
	default:
		if d := vcDiff(a, b, l.concrete()); d != "" {
			return false, l.generic(), "sent vs decoded " + d
		}
	}
	return true, "", ""
}

func vcShow(v reflect.Value) string {
	v = vcClean(v)
	switch v.Kind() {
	case reflect.Slice:
		if v.Type().Elem().Kind() == reflect.Uint8 {
			return fmt.Sprintf("%x", vcTrunc(v.Bytes(), 24))
		}
		return fmt.Sprintf("len %d", v.Len())
	case reflect.Map:
		return fmt.Sprintf("len %d", v.Len())
	case reflect.Ptr:
		return fmt.Sprintf("nil=%v", v.IsNil())
	case reflect.String:
		return fmt.Sprintf("%q", vcTruncS(v.String(), 40))
	}
	if v.Type() == vcTypeTime {
		return v.Interface().(time.Time).UTC().String()
	}
	return vcTruncS(fmt.Sprintf("%v", v), 60)
}

// vcHasMap tells whether encoding a value of type t may iterate a Go map.
func vcHasMap(t reflect.Type, seen map[reflect.Type]bool) bool {
	if seen[t] {
		return false
	}
	seen[t] = true
	switch t.Kind() {
	case reflect.Map:
		return true
	case reflect.Ptr, reflect.Slice, reflect.Array:
		return vcHasMap(t.Elem(), seen)
	case reflect.Struct:
		if t == vcTypeTime || t == vcTypeBroker {
			return false
		}
		for i := 0; i < t.NumField(); i++ {
			if vcRuleFor(t, t.Field(i)) == vcRuleCache {
				continue
			}
			if vcHasMap(t.Field(i).Type, seen) {
				return true
			}
		}
	}
	return false
}

// vcDump writes a value out for humans (bounded).
func vcDump(v reflect.Value, max int) string {
	var sb strings.Builder
	vcDumpInto(&sb, v, 0, max)
	s := sb.String()
	if len(s) > max {
		s = s[:max] + "…"
	}
	return s
}

func vcDumpInto(sb *strings.Builder, v reflect.Value, depth, max int) {
	if sb.Len() > max {
		return
	}
	v = vcClean(v)
	t := v.Type()
	switch t.Kind() {
	case reflect.Ptr:
		if v.IsNil() {
			sb.WriteString("nil")
			return
		}
		if t == vcTypeBrokerPtr {
			b := v.Interface().(*Broker)
			fmt.Fprintf(sb, "&Broker{id:%d addr:%q rack:%s}", b.id, b.addr, vcStrPtr(b.rack))
			return
		}
		sb.WriteByte('&')
		vcDumpInto(sb, v.Elem(), depth, max)
	case reflect.Struct:
		if t == vcTypeTime {
			tm := v.Interface().(time.Time)
			if tm.IsZero() {
				sb.WriteString("time.Time{}")
			} else {
				fmt.Fprintf(sb, "unixms(%d)", tm.UnixNano()/int64(time.Millisecond))
			}
			return
		}
		sb.WriteString(t.Name())
		sb.WriteByte('{')
		first := true
		for i := 0; i < t.NumField(); i++ {
			if vcRuleFor(t, t.Field(i)) == vcRuleCache {
				continue
			}
			fv := vcClean(v.Field(i))
			if fv.IsZero() {
				continue
			}
			if !first {
				sb.WriteByte(' ')
			}
			first = false
			sb.WriteString(t.Field(i).Name)
			sb.WriteByte(':')
			vcDumpInto(sb, fv, depth+1, max)
		}
		sb.WriteByte('}')
	case reflect.Slice:
		if v.IsNil() {
			sb.WriteString("nil")
			return
		}
		if t.Elem().Kind() == reflect.Uint8 {
			fmt.Fprintf(sb, "x%q", fmt.Sprintf("%x", vcTrunc(v.Bytes(), 32)))
			if v.Len() > 32 {
				fmt.Fprintf(sb, "(+%d)", v.Len()-32)
			}
			return
		}
		sb.WriteByte('[')
		for i := 0; i < v.Len(); i++ {
			if i > 0 {
				sb.WriteByte(' ')
			}
			if i >= 6 {
				fmt.Fprintf(sb, "…(%d)", v.Len())
				break
			}
			vcDumpInto(sb, v.Index(i), depth+1, max)
		}
		sb.WriteByte(']')
	case reflect.Map:
		if v.IsNil() {
			sb.WriteString("nil")
			return
		}
		sb.WriteString("map[")
		keys := v.MapKeys()
		sort.Slice(keys, func(i, j int) bool { return fmt.Sprint(keys[i]) < fmt.Sprint(keys[j]) })
		for i, k := range keys {
			if i > 0 {
				sb.WriteByte(' ')
			}
			fmt.Fprintf(sb, "%v:", k)
			vcDumpInto(sb, vcAddr(v.MapIndex(k)), depth+1, max)
		}
		sb.WriteByte(']')
	case reflect.String:
		fmt.Fprintf(sb, "%q", vcTruncS(v.String(), 48))
	case reflect.Interface:
		if v.IsNil() {
			sb.WriteString("nil")
			return
		}
		vcDumpInto(sb, v.Elem(), depth, max)
	default:
		if v.CanInterface() {
			fmt.Fprintf(sb, "%v", v.Interface())
		} else {
			fmt.Fprintf(sb, "%v", v)
		}
	}
}
