//go:build verif

package sarama

import (
	"encoding/binary"
	"fmt"
	"sort"
	"sync/atomic"
)

// VSimProduceCtx describes one partition batch of a produce request, as parsed
// by the reference reader.
type VSimProduceCtx struct {
	ReqSeq    int64
	N         int // n-th partition batch cluster-wide (1-based)
	Broker    int32
	Conn      int64
	CorrID    int32
	Version   int16
	Acks      int16
	Topic     string
	Partition int32
	IsLeader  bool
	Known     bool // topic/partition exists
	Batches   []VBatch
	ParseErr  string
	WireBytes int // size of the whole request on the wire
	SetBytes  int // size of this partition's record set
	NParts    int // partitions in this request
}

type VSimProduceAction struct {
	Kind int    // VPOk …
	Code KError // for the error kinds
}

const (
	VPOk             = iota
	VPErrNoAppend    // answer Code, nothing appended
	VPErrAfterAppend // append, answer Code (acknowledgement lost at the broker)
	VPOmitBlock      // append, leave the partition out of the answer
	VPDropBefore     // close the connection, nothing appended
	VPDropAfter      // append, close the connection without answering
	VPSilentBefore   // never answer, nothing appended
	VPSilentAfter    // append, never answer
	VPOmitNoAppend   // leave the partition out of the answer, nothing appended
)

// VSimProduced records what the cluster did with one partition batch.
type VSimProduced struct {
	Seq       int64
	ReqSeq    int64 // identifies the request this partition batch arrived in
	IsLeader  bool
	N         int
	Broker    int32
	Conn      int64
	Topic     string
	Partition int32
	Version   int16
	Acks      int16
	Action    int
	Code      int16 // code answered (after applying producer-state rules)
	Appended  bool
	Duplicate bool  // recognised as a resend of a cached batch
	Base      int64 // base offset answered / appended at
	Batches   []VBatch
	WireBytes int
	SetBytes  int
	NParts    int
	NRecs     int
	ParseErr  string
	Notes     []string
}

type vsProducePart struct {
	topic string
	part  int32
	set   []byte
}

// vrParseProduceRequest parses a produce request body (after the request
// header) independently of sarama's decoder.
func vrParseProduceRequest(version int16, b []byte) (acks int16, parts []vsProducePart, err error) {
	rdStr := func(nullable bool) (string, error) {
		if len(b) < 2 {
			return "", errVRShort
		}
		n := int(int16(binary.BigEndian.Uint16(b)))
		b = b[2:]
		if n == -1 && nullable {
			return "", nil
		}
		if n < 0 || n > len(b) {
			return "", fmt.Errorf("ref: string length %d", n)
		}
		s := string(b[:n])
		b = b[n:]
		return s, nil
	}
	if version >= 3 {
		if _, err = rdStr(true); err != nil {
			return
		}
	}
	if len(b) < 10 {
		return 0, nil, errVRShort
	}
	acks = int16(binary.BigEndian.Uint16(b))
	b = b[6:] // acks + timeout
	nt := int(int32(binary.BigEndian.Uint32(b)))
	b = b[4:]
	for i := 0; i < nt; i++ {
		var topic string
		if topic, err = rdStr(false); err != nil {
			return
		}
		if len(b) < 4 {
			return 0, nil, errVRShort
		}
		np := int(int32(binary.BigEndian.Uint32(b)))
		b = b[4:]
		for j := 0; j < np; j++ {
			if len(b) < 8 {
				return 0, nil, errVRShort
			}
			pid := int32(binary.BigEndian.Uint32(b))
			sz := int(int32(binary.BigEndian.Uint32(b[4:])))
			b = b[8:]
			if sz < 0 || sz > len(b) {
				return 0, nil, fmt.Errorf("ref: record set size %d exceeds remaining %d", sz, len(b))
			}
			parts = append(parts, vsProducePart{topic, pid, b[:sz]})
			b = b[sz:]
		}
	}
	if len(b) != 0 {
		return 0, nil, fmt.Errorf("ref: %d trailing bytes after produce request", len(b))
	}
	return
}

func vsRequestBodyOffset(raw []byte) int {
	// api key(2) version(2) corr(4) client id (nullable string)
	cl := int(int16(binary.BigEndian.Uint16(raw[8:10])))
	if cl < 0 {
		cl = 0
	}
	return 10 + cl
}

func (s *VSim) handleProduce(b *VSimBroker, connID int64, ctx *VSimReqCtx, r *ProduceRequest, raw []byte) (*vsResponse, int) {
	acks, parts, perr := vrParseProduceRequest(ctx.Version, raw[vsRequestBodyOffset(raw):])
	if perr != nil {
		s.mu.Lock()
		s.logEvent("produce", b.ID, connID, map[string]interface{}{"produced": VSimProduced{Broker: b.ID, Conn: connID, Version: ctx.Version, ParseErr: perr.Error(), WireBytes: ctx.Size}})
		s.mu.Unlock()
		return nil, VConnDropAfter
	}
	sort.Slice(parts, func(i, j int) bool {
		if parts[i].topic != parts[j].topic {
			return parts[i].topic < parts[j].topic
		}
		return parts[i].part < parts[j].part
	})
	type answer struct {
		topic string
		part  int32
		code  KError
		base  int64
		omit  bool
	}
	var answers []answer
	connAct := VConnProceed
	for _, pp := range parts {
		pc := &VSimProduceCtx{ReqSeq: ctx.Seq, Broker: b.ID, Conn: connID, CorrID: ctx.CorrID, Version: ctx.Version, Acks: acks,
			Topic: pp.topic, Partition: pp.part, WireBytes: ctx.Size, SetBytes: len(pp.set), NParts: len(parts)}
		batches, partial, err := VRefParseRecordSet(pp.set)
		if err != nil {
			pc.ParseErr = err.Error()
		} else if partial {
			pc.ParseErr = "ref: truncated record set in a produce request"
		}
		pc.Batches = batches
		s.mu.Lock()
		s.admin.nBatch++
		pc.N = s.admin.nBatch
		var part *vsPartition
		if t := s.topics[pp.topic]; t != nil {
			part = t.parts[pp.part]
		}
		pc.Known = part != nil
		pc.IsLeader = part != nil && part.leader == b.ID
		s.mu.Unlock()

		act := VSimProduceAction{}
		switch {
		case pc.ParseErr != "":
			act = VSimProduceAction{Kind: VPErrNoAppend, Code: ErrInvalidMessage} // CORRUPT_MESSAGE
		case !pc.Known:
			act = VSimProduceAction{Kind: VPErrNoAppend, Code: ErrUnknownTopicOrPartition}
		case !pc.IsLeader:
			act = VSimProduceAction{Kind: VPErrNoAppend, Code: ErrNotLeaderForPartition}
		case s.OnProduce != nil:
			act = s.OnProduce(pc)
		}
		s.mu.Lock()
		// leadership may have moved while the behaviour was parked
		if part != nil && part.leader != b.ID && act.Kind != VPErrNoAppend && pc.ParseErr == "" {
			act = VSimProduceAction{Kind: VPErrNoAppend, Code: ErrNotLeaderForPartition}
		}
		rec := VSimProduced{ReqSeq: ctx.Seq, IsLeader: pc.IsLeader, N: pc.N, Broker: b.ID, Conn: connID, Topic: pp.topic, Partition: pp.part, Version: ctx.Version, Acks: acks,
			Action: act.Kind, Batches: batches, WireBytes: ctx.Size, SetBytes: len(pp.set), NParts: len(parts), ParseErr: pc.ParseErr, Base: -1}
		for _, vb := range batches {
			rec.NRecs += len(vb.Recs)
			rec.Notes = append(rec.Notes, vb.Notes...)
		}
		appendIt := func() (int64, KError) {
			base, code, dup := s.appendLocked(part, batches)
			rec.Appended = code == ErrNoError && !dup
			rec.Duplicate = dup
			rec.Base = base
			return base, code
		}
		ans := answer{topic: pp.topic, part: pp.part, base: -1}
		switch act.Kind {
		case VPOk:
			ans.base, ans.code = appendIt()
		case VPErrNoAppend:
			ans.code = act.Code
		case VPErrAfterAppend:
			_, code := appendIt()
			ans.code = act.Code
			if code != ErrNoError {
				ans.code = code
			}
		case VPOmitBlock:
			appendIt()
			ans.omit = true
		case VPOmitNoAppend:
			ans.omit = true
		case VPDropBefore:
			if connAct < VConnDropAfter {
				connAct = VConnDropAfter
			}
		case VPDropAfter:
			appendIt()
			if connAct < VConnDropAfter {
				connAct = VConnDropAfter
			}
		case VPSilentBefore:
			connAct = VConnSilentAfter
		case VPSilentAfter:
			appendIt()
			connAct = VConnSilentAfter
		}
		rec.Code = int16(ans.code)
		rec.Seq = s.logEvent("produce", b.ID, connID, map[string]interface{}{"produced": rec})
		s.mu.Unlock()
		answers = append(answers, ans)
		atomic.AddInt64(&s.progress, 1)
	}
	if connAct != VConnProceed {
		return nil, connAct
	}
	if acks == 0 {
		return nil, VConnProceed
	}
	// hand-written produce response (independent of sarama's encoder)
	var body []byte
	byTopic := map[string][]answer{}
	var order []string
	for _, a := range answers {
		if a.omit {
			continue
		}
		if _, ok := byTopic[a.topic]; !ok {
			order = append(order, a.topic)
		}
		byTopic[a.topic] = append(byTopic[a.topic], a)
	}
	body = binary.BigEndian.AppendUint32(body, uint32(len(order)))
	for _, t := range order {
		body = binary.BigEndian.AppendUint16(body, uint16(len(t)))
		body = append(body, t...)
		body = binary.BigEndian.AppendUint32(body, uint32(len(byTopic[t])))
		for _, a := range byTopic[t] {
			body = binary.BigEndian.AppendUint32(body, uint32(a.part))
			body = binary.BigEndian.AppendUint16(body, uint16(a.code))
			body = binary.BigEndian.AppendUint64(body, uint64(a.base))
			if ctx.Version >= 2 {
				body = binary.BigEndian.AppendUint64(body, ^uint64(0)) // log append time -1 (CreateTime topic)
			}
			if ctx.Version >= 5 {
				body = binary.BigEndian.AppendUint64(body, 0)
			}
		}
	}
	if ctx.Version >= 1 {
		body = binary.BigEndian.AppendUint32(body, 0)
	}
	return &vsResponse{hdrVersion: 0, body: body}, VConnProceed
}

// appendLocked applies Kafka's producer-state rules and appends. It returns
// the base offset to acknowledge, the error code, and whether the batch was
// recognised as a duplicate of a cached one (acknowledged, not written).
func (s *VSim) appendLocked(part *vsPartition, batches []VBatch) (int64, KError, bool) {
	first := int64(-1)
	for _, vb := range batches {
		if len(vb.Recs) == 0 {
			continue
		}
		if vb.Magic == 2 && vb.PID >= 0 {
			st := part.pstate[vb.PID]
			firstSeq := vb.BaseSeq
			lastSeq := vb.BaseSeq + int32(len(vb.Recs)) - 1
			if st != nil {
				switch {
				case vb.Epoch < st.epoch:
					return -1, ErrInvalidProducerEpoch, false
				case vb.Epoch == st.epoch:
					for _, m := range st.batches {
						if m.epoch == vb.Epoch && m.first == firstSeq && m.last == lastSeq {
							if first < 0 {
								first = m.base
							}
							return first, ErrNoError, true
						}
					}
					if n := len(st.batches); n > 0 {
						cur := st.batches[n-1].last
						if lastSeq <= cur {
							return -1, ErrDuplicateSequenceNumber, false
						}
						if firstSeq != cur+1 {
							return -1, ErrOutOfOrderSequenceNumber, false
						}
					} else if firstSeq != 0 {
						return -1, ErrOutOfOrderSequenceNumber, false
					}
				default: // newer epoch must start at 0
					if firstSeq != 0 {
						return -1, ErrOutOfOrderSequenceNumber, false
					}
					st.epoch = vb.Epoch
					st.batches = nil
				}
			} else {
				if firstSeq != 0 {
					return -1, ErrOutOfOrderSequenceNumber, false
				}
				st = &vsProducerState{epoch: vb.Epoch}
				part.pstate[vb.PID] = st
			}
			base := part.base + int64(len(part.log))
			st.batches = append(st.batches, vsBatchMeta{vb.Epoch, firstSeq, lastSeq, base})
			if len(st.batches) > 5 {
				st.batches = st.batches[len(st.batches)-5:]
			}
		}
		base := part.base + int64(len(part.log))
		if first < 0 {
			first = base
		}
		for _, r := range vb.Recs {
			r.Offset = part.base + int64(len(part.log))
			part.log = append(part.log, r)
		}
	}
	return first, ErrNoError, false
}

// Produced returns every partition batch the cluster has seen, in order.
func (s *VSim) Produced() []VSimProduced {
	s.mu.Lock()
	defer s.mu.Unlock()
	var out []VSimProduced
	for _, e := range s.events {
		if e.Kind == "produce" {
			p := e.Info["produced"].(VSimProduced)
			p.Seq = e.Seq
			out = append(out, p)
		}
	}
	return out
}
