// Package proto holds the records exchanged between the runner (vrun) and its
// worker children (vworker) through journal files, and the helpers both use.
package proto

import (
	"encoding/json"
	"fmt"
	"hash/fnv"
	"os"
	"sync"
)

// Viol is one oracle firing inside one case.
type Viol struct {
	Kind string `json:"kind"`           // vocabulary of DESIGN.md §11
	Attr string `json:"attr,omitempty"` // attribution made of observed facts
	Msg  string `json:"msg,omitempty"`  // free text for the reader, never matched
}

// Sig is the signature findings are matched on.
func (v Viol) Sig(prop string) string {
	if v.Attr == "" {
		return prop + "|" + v.Kind
	}
	return prop + "|" + v.Kind + "|" + v.Attr
}

// Rec is one journal line.
type Rec struct {
	T  string `json:"t"` // start | end | done | note
	ID string `json:"id,omitempty"`
	// Idx is the position of the case in the (tier, seed)-determined list.
	Idx int `json:"idx"`

	Verdict    string `json:"verdict,omitempty"` // held | violated | inconclusive
	NonTrivial bool   `json:"nontrivial,omitempty"`
	Path       string `json:"path,omitempty"` // path / shape signature of the case
	// A case may be a batch of evaluations (pure-function engines): Evals counts
	// them and Paths lists the distinct non-trivial shape signatures seen in it.
	Evals  int                    `json:"evals,omitempty"`
	Paths  []string               `json:"paths,omitempty"`
	Viols  []Viol                 `json:"viols,omitempty"`
	Obs    map[string]int64       `json:"obs,omitempty"`    // counters observed by the monitors
	Sample map[string]interface{} `json:"sample,omitempty"` // the case written out
	Why    string                 `json:"why,omitempty"`    // reason for inconclusive
	Ms     int64                  `json:"ms,omitempty"`     // wall time of the case
	Input  string                 `json:"input,omitempty"`  // hex input, written at start for decoder cases

	Cases int                    `json:"cases,omitempty"` // done: number of cases this shard ran
	Extra map[string]interface{} `json:"extra,omitempty"`
}

// Journal is an append-only JSONL writer, flushed per record so that a dying
// child leaves the open case behind.
type Journal struct {
	mu sync.Mutex
	f  *os.File
}

func OpenJournal(path string) (*Journal, error) {
	f, err := os.OpenFile(path, os.O_CREATE|os.O_WRONLY|os.O_APPEND, 0o644)
	if err != nil {
		return nil, err
	}
	return &Journal{f: f}, nil
}

func (j *Journal) Write(r Rec) {
	b, err := json.Marshal(r)
	if err != nil {
		b, _ = json.Marshal(Rec{T: "note", ID: r.ID, Idx: r.Idx, Why: "marshal: " + err.Error()})
	}
	j.mu.Lock()
	j.f.Write(append(b, '\n'))
	j.mu.Unlock()
}

func (j *Journal) Close() { j.f.Close() }

// Replay is what a replay file holds.
type Replay struct {
	Property string                 `json:"property"`
	Engine   string                 `json:"engine"`
	Tier     string                 `json:"tier"`
	Seed     int64                  `json:"seed"`
	CaseID   string                 `json:"case_id"`
	Idx      int                    `json:"idx"`
	Sig      string                 `json:"sig"`
	Viols    []Viol                 `json:"viols"`
	Sample   map[string]interface{} `json:"sample,omitempty"`
	Input    string                 `json:"input,omitempty"`
	Crash    string                 `json:"crash,omitempty"`
	Cases    int                    `json:"cases_with_this_signature"`
}

func Hash(s string) string {
	h := fnv.New64a()
	h.Write([]byte(s))
	return fmt.Sprintf("%012x", h.Sum64()&0xffffffffffff)
}

// SplitMix is the PRNG used to derive sub-seeds; deterministic and cheap.
func SplitMix(x uint64) uint64 {
	x += 0x9e3779b97f4a7c15
	z := x
	z = (z ^ (z >> 30)) * 0xbf58476d1ce4e5b9
	z = (z ^ (z >> 27)) * 0x94d049bb133111eb
	return z ^ (z >> 31)
}

func SubSeed(seed int64, idx int, salt string) int64 {
	h := fnv.New64a()
	h.Write([]byte(salt))
	return int64(SplitMix(uint64(seed)*0x100000001b3^uint64(idx)^h.Sum64()) >> 1)
}
